"""The selection part of the threading Scheduler.exec_jobs.  Adds to py2v_objs.ObjMethod:
  * `return self.__exec_jobs(batch, ref_dt)`: the translation stops at the hand-over, its result is (batch, ref_dt)
  * `d: dict[Job, float] = {}` followed by `for x in S: ...; d[x] = e`   -> an association list built by mapM
  * `sorted(d, key=d.get, reverse=True)`                                  -> py_sorted_desc (stable, descending by value)
  * `[x for idx, x in enumerate(l) if c]` with `d[x]` in the condition     -> filterM_idx / py_dict_get
  * `self.__priority_function(seconds, job, max_exec, n_jobs)`: the user's function is a parameter (prio_fn)
  * `list(S)`, `len(S)` of the job set (its iteration order is the order of the list it is given as)
Fail closed like py2v.py."""
import ast

from py2v import fail, COQTY
from py2v_objs import ObjMethod

COQTY.update({"jobobj": "pyjobobj", "set:jobobj": "list pyjobobj", "list:jobobj": "list pyjobobj",
              "dict:jobobj:float": "list (pyjobobj * pyfloat)", "handover": "(list pyjobobj * datetime)"})


class SchedMethod(ObjMethod):
    def __init__(self, fd, state_type, fields, objmethods):
        ObjMethod.__init__(self, fd, {}, state_type, fields, {}, objmethods, {})
        self.ret = "handover"
        self.fresh_dicts = set()     # dict variables that are still empty
        self.lock_depth = 0          # statements inside `with self.__jobs_lock:`

    def e(self, n):
        if isinstance(n, ast.Call):
            f = n.func
            if isinstance(f, ast.Name) and f.id == "list" and len(n.args) == 1 and not n.keywords:
                c, t = self.e(n.args[0])
                if t == "set:jobobj":
                    return c, "list:jobobj"
                fail(n, "list() of " + t)
            if isinstance(f, ast.Name) and f.id == "len" and len(n.args) == 1 and not n.keywords:
                c, t = self.e(n.args[0])
                if t in ("set:jobobj", "list:jobobj"):
                    return "(length %s)" % c, "nat"
            if self.fkey(f) == "__priority_function" and not n.keywords:
                args = [self.e(a) for a in n.args]
                want = ["float", "jobobj", "int", "int"]
                out = []
                if len(args) != 4:
                    fail(n, "priority function arguments")
                for (c, t), w in zip(args, want):
                    if t == "nat" and w == "int":
                        c, t = "(Z.of_nat %s)" % c, "int"
                    if t != w:
                        fail(n, "priority function argument type %s, expected %s" % (t, w))
                    out.append(c)
                r = self.newvar("pr")
                self.pre.append((r, "(prio_fn %s)" % " ".join(out)))
                return r, "float"
            if isinstance(f, ast.Name) and f.id == "sorted" and len(n.args) == 1 and isinstance(n.args[0], ast.Name):
                d = n.args[0].id
                kw = {k.arg: ast.unparse(k.value) for k in n.keywords}
                if self.env.get(d) == "dict:jobobj:float" and d not in self.fresh_dicts \
                        and kw == {"key": d + ".get", "reverse": "True"}:
                    return "(py_sorted_desc %s)" % d, "list:jobobj"
                fail(n, "sorted() form")
        if isinstance(n, ast.UnaryOp) and isinstance(n.op, ast.USub):
            c, t = self.e(n.operand)
            if t == "tsec":
                return "(fl_neg_tsec %s)" % c, "float"
        if isinstance(n, ast.Subscript) and isinstance(n.value, ast.Name) and self.env.get(n.value.id) == "dict:jobobj:float" \
                and n.value.id not in self.fresh_dicts:
            k, tk = self.e(n.slice)
            if tk != "jobobj":
                fail(n, "dict key type")
            r = self.newvar("dv")
            self.pre.append((r, "(py_dict_get %s %s)" % (n.value.id, k)))
            return r, "float"
        if isinstance(n, ast.Compare) and len(n.ops) == 1 and isinstance(n.ops[0], ast.Gt):
            mark = len(self.pre)
            a, ta = self.e(n.left)
            b, tb = self.e(n.comparators[0])
            if ta == "float" and tb == "int":
                return "(fl_gt_int %s %s)" % (a, b), "bool"
            del self.pre[mark:]
        if isinstance(n, ast.ListComp) and len(n.generators) == 1:
            g = n.generators[0]
            if isinstance(g.target, ast.Tuple) and len(g.target.elts) == 2 and all(isinstance(x, ast.Name) for x in g.target.elts) \
                    and isinstance(g.iter, ast.Call) and isinstance(g.iter.func, ast.Name) and g.iter.func.id == "enumerate" \
                    and len(g.iter.args) == 1 and not g.iter.keywords and len(g.ifs) == 1 and not g.is_async:
                idx, x = g.target.elts[0].id, g.target.elts[1].id
                it, tit = self.e(g.iter.args[0])
                if tit != "list:jobobj" or not (isinstance(n.elt, ast.Name) and n.elt.id == x):
                    fail(n, "enumerate comprehension form")
                saved_env, saved_pre = dict(self.env), self.pre
                self.env[idx], self.env[x] = "int", "jobobj"
                self.pre = []
                c, tc = self.e(g.ifs[0])
                mine, self.pre, self.env = self.pre, saved_pre, saved_env
                if tc != "bool":
                    fail(n, "comprehension condition typing")
                r = self.newvar("fl")
                self.pre.append((r, "(filterM_idx (fun %s %s => %s) 0 %s)" % (idx, x, self.wrap(mine, "(Ok %s)" % c), it)))
                return r, "list:jobobj"
        return ObjMethod.e(self, n)

    def block(self, stmts):
        if not stmts:
            fail(self.fd, "control reaches the end of exec_jobs")
        s, rest = stmts[0], stmts[1:]
        # return self.__exec_jobs(batch, ref_dt)
        if isinstance(s, ast.Expr) and isinstance(s.value, ast.Constant) and s.value.value == "__unlock__":
            self.lock_depth -= 1
            try:
                return self.block(rest)
            finally:
                self.lock_depth += 1
        if isinstance(s, ast.Return) and isinstance(s.value, ast.Call) and self.fkey(s.value.func) == "__exec_jobs" \
                and len(s.value.args) == 2 and not s.value.keywords:
            if self.lock_depth:
                fail(s, "the batch is handed to the workers while the registry lock is held")
            pre, a, ta = self.expr(s.value.args[0])
            pre2, b, tb = self.expr(s.value.args[1])
            if ta != "list:jobobj" or tb != "datetime":
                fail(s, "hand-over typing")
            return self.wrap(pre + pre2, "(Ok (%s, %s))" % (a, b))
        if isinstance(s, ast.With) and len(s.items) == 1 and ast.unparse(s.items[0].context_expr).endswith("__jobs_lock"):
            self.lock_depth += 1
            try:
                return self.block(list(s.body) + [ast.Expr(value=ast.Constant(value="__unlock__"))] + rest)
            finally:
                self.lock_depth -= 1
        # d: dict[Job, float] = {}
        if isinstance(s, ast.AnnAssign) and isinstance(s.target, ast.Name) and ast.unparse(s.annotation) == "dict[Job, float]" \
                and isinstance(s.value, ast.Dict) and not s.value.keys:
            saved = dict(self.env)
            self.env[s.target.id] = "dict:jobobj:float"
            self.fresh_dicts.add(s.target.id)
            body = self.block(rest)
            self.env = saved
            return body
        # for x in self.__jobs: <local assignments>; d[x] = e
        if isinstance(s, ast.For) and self.fkey(s.iter) == "__jobs" and isinstance(s.target, ast.Name) and not s.orelse \
                and s.body and isinstance(s.body[-1], ast.Assign) and len(s.body[-1].targets) == 1 \
                and isinstance(s.body[-1].targets[0], ast.Subscript) and isinstance(s.body[-1].targets[0].value, ast.Name) \
                and s.body[-1].targets[0].value.id in self.fresh_dicts \
                and isinstance(s.body[-1].targets[0].slice, ast.Name) and s.body[-1].targets[0].slice.id == s.target.id:
            d = s.body[-1].targets[0].value.id
            x = s.target.id
            for st in s.body[:-1]:
                if not (isinstance(st, ast.Assign) and len(st.targets) == 1 and isinstance(st.targets[0], ast.Name)):
                    fail(st, "loop body may only assign locals before the dict insertion")
            saved_env, saved_ret = dict(self.env), self.ret
            self.env[x] = "jobobj"
            # translate the local assignments followed by `return (x, e)` of the element function
            marker = ast.Return(value=s.body[-1].value)
            self.ret = "__elem"
            self._elem_key = x
            inner = self.block(list(s.body[:-1]) + [marker])
            self.env, self.ret = saved_env, saved_ret
            self.fresh_dicts.discard(d)
            lproj = self.fields["__jobs"][0]
            body = self.block(rest)
            return "(bind (mapM (fun %s => %s) (%s self)) (fun %s => %s))" % (x, inner, lproj, d, body)
        if isinstance(s, ast.Return) and self.ret == "__elem":
            pre, c, t = self.expr(s.value)
            if t != "float":
                fail(s, "dict value type " + t)
            return self.wrap(pre, "(Ok (%s, %s))" % (self._elem_key, c))
        return ObjMethod.block(self, stmts)

    def emit(self, name):
        body = self.block(self.fd.body)
        args = " ".join("(%s : %s)" % (a, COQTY[t]) for a, t in self.params)
        return ("Definition %s (self : %s) (now_us : Z) (prio_fn : pyfloat -> pyjobobj -> Z -> Z -> res pyfloat) %s "
                ": res (list pyjobobj * datetime) :=\n  %s.\n" % (name, self.state_type, args, body))
