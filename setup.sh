#!/bin/sh
# Builds the static part of the framework from files on disk only: the Coq development
# (full .vo build), the extracted OCaml model and its driver.
set -e
cd "$(dirname "$0")"
exec ./check --setup
