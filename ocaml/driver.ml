(* Driver for the extracted models: reads one operation per line (history DSL of
   DESIGN.md appendix A, token form), prints the observations after every operation.
   Only parsing and printing live here; every decision is taken by extracted code. *)
open Model

(* ---- conversions between OCaml ints and the extracted inductive numbers ------------ *)
let rec pos_of_int (n : int) : positive =
  if n = 1 then XH
  else if n land 1 = 0 then XO (pos_of_int (n lsr 1))
  else XI (pos_of_int (n lsr 1))
let z_of_int (n : int) : z =
  if n = 0 then Z0 else if n > 0 then Zpos (pos_of_int n) else Zneg (pos_of_int (- n))
let rec int_of_pos (p : positive) : int =
  match p with XH -> 1 | XO q -> 2 * int_of_pos q | XI q -> 2 * int_of_pos q + 1
let int_of_z (x : z) : int =
  match x with Z0 -> 0 | Zpos p -> int_of_pos p | Zneg p -> - (int_of_pos p)
(* arbitrary precision printing for priorities (products may exceed 63 bits) *)
let string_of_z (x : z) : string =
  (* decimal conversion by repeated division on the extracted Z *)
  let ten = z_of_int 10 in
  let rec go (v : z) (acc : string) : string =
    match v with
    | Z0 -> if acc = "" then "0" else acc
    | _ ->
      let q = Z.div v ten and r = Z.modulo v ten in
      go q (string_of_int (int_of_z r) ^ acc) in
  match x with
  | Zneg p -> "-" ^ go (Zpos p) ""
  | _ -> go x ""
let z_of_string (s : string) : z =
  (* decimal parsing into the extracted Z, no size limit *)
  let neg = String.length s > 0 && s.[0] = '-' in
  let ten = z_of_int 10 in
  let acc = ref Z0 in
  String.iteri (fun i c ->
      if i = 0 && neg then () else
        acc := Z.add (Z.mul !acc ten) (z_of_int (Char.code c - 48))) s;
  if neg then Z.opp !acc else !acc
let rec nat_of_int (n : int) : nat = if n <= 0 then O else S (nat_of_int (n - 1))
let rec int_of_nat (n : nat) : int = match n with O -> 0 | S m -> 1 + int_of_nat m

(* ---- token stream -------------------------------------------------------------------- *)
exception Parse of string
let toks : string list ref = ref []
let next () = match !toks with
  | [] -> raise (Parse "unexpected end of line")
  | t :: r -> toks := r; t
let int () = let t = next () in try int_of_string t with _ -> raise (Parse ("int expected: " ^ t))
let zz () = z_of_string (next ())
let nat () = nat_of_int (int ())
let boolean () = (int ()) <> 0
let rec many (n : int) (f : unit -> 'a) : 'a list = if n <= 0 then [] else let x = f () in x :: many (n - 1) f
let counted f = let n = int () in many n f
let otz () = match next () with "-" -> None | t -> Some (z_of_string t)
let dt () = let l = zz () in let o = otz () in { loc = l; off = o }
let odt () = match next () with "N" -> None | "S" -> Some (dt ()) | t -> raise (Parse ("odt: " ^ t))
let time () =
  let h = zz () in let m = zz () in let s = zz () in let u = zz () in let o = otz () in
  { t_hour = h; t_minute = m; t_second = s; t_micro = u; t_off = o }
let timing () = match next () with
  | "C" -> TCyclic (zz ())
  | "T" -> TTime (time ())
  | "W" -> let w = zz () in TWeekday (w, time ())
  | t -> raise (Parse ("timing: " ^ t))
let jobtype () = match int () with
  | 0 -> CYCLIC | 1 -> MINUTELY | 2 -> HOURLY | 3 -> DAILY | 4 -> WEEKLY
  | _ -> raise (Parse "jobtype")
let cfg () =
  let ty = jobtype () in
  let tg = counted timing in
  let mx = zz () in
  let tags = counted zz in
  let delay = boolean () in
  let start = odt () in
  let stop = odt () in
  let skip = boolean () in
  let wn = zz () in let wd = zz () in
  let args = counted zz in
  let kw = counted (fun () -> let k = zz () in let v = zz () in (k, v)) in
  let outs = counted boolean in
  { c_type = ty; c_timing = tg; c_max_attempts = mx; c_tags = tags; c_delay = delay;
    c_start = start; c_stop = stop; c_skip = skip; c_wnum = wn; c_wden = wd;
    c_args = args; c_kwargs = kw; c_outs = outs }
let otags () = match next () with
  | "N" -> None | "S" -> Some (counted zz) | t -> raise (Parse ("otags: " ^ t))
let oncetiming () = match next () with
  | "D" -> OnceDt (dt ())
  | "TD" -> OnceTd (zz ())
  | "TM" -> OnceTime (time ())
  | "WD" -> let w = zz () in OnceWd (w, time ())
  | t -> raise (Parse ("oncetiming: " ^ t))
let cbop () = match next () with
  | "SCHED" -> CSchedule (cfg ())
  | "ONCE" -> let ot = oncetiming () in COnce (ot, cfg ())
  | "DEL" -> CDelete (nat ())
  | "DELJOBS" -> let t = otags () in CDeleteJobs (t, boolean ())
  | "GETJOBS" -> let t = otags () in CGetJobs (t, boolean ())
  | "JOBS" -> CJobs
  | t -> raise (Parse ("cbop: " ^ t))
let priokind () = match next () with
  | "linear" -> PLinear | "const" -> PConst | "table" -> PTable
  | t -> raise (Parse ("priokind: " ^ t))

(* ---- printing --------------------------------------------------------------------------- *)
let exn_name = function
  | SchedulerError -> "SchedulerError" | TypeError -> "TypeError"
  | AttributeError -> "AttributeError" | ValueError -> "ValueError"
  | IndexError -> "IndexError" | OtherError -> "OtherError"
let ids l = String.concat "," (List.map (fun n -> string_of_int (int_of_nat n)) l)
let sorted_ids l = String.concat "," (List.map string_of_int (List.sort compare (List.map int_of_nat l)))
let zs l = String.concat "," (List.map string_of_z l)
let print_res (r : value res) =
  match r with
  | Err e -> Printf.printf "RES err %s\n" (exn_name e)
  | Ok VNone -> print_string "RES ok none\n"
  | Ok (VInt n) -> Printf.printf "RES ok int %s\n" (string_of_z n)
  | Ok (VIds l) -> Printf.printf "RES ok ids %s\n" (sorted_ids l)
  | Ok (VJob id) -> Printf.printf "RES ok job %d\n" (int_of_nat id)
let print_state (s : sched) =
  Printf.printf "REG %s\n" (sorted_ids s.s_reg);
  List.iter (fun (id, j) ->
      let d = job_datetime j in
      Printf.printf "J %d %s %s %s %s %d\n" (int_of_nat id) (string_of_z (utc d))
        (match d.off with None -> "-" | Some o -> string_of_z o)
        (string_of_z j.j_attempts) (string_of_z j.j_failed)
        (if has_attempts j then 1 else 0)) s.s_jobs;
  List.iter (fun e ->
      match e with
      | EInvoke (id, due, args, kw) ->
        Printf.printf "EV inv %d %s [%s] {%s}\n" (int_of_nat id) (string_of_z due) (zs args)
          (String.concat "," (List.map (fun (k, v) -> string_of_z k ^ ":" ^ string_of_z v) kw))
      | EPrioCall (id, od, mx, n, (pn, pd)) ->
        Printf.printf "EV prio %d %s %s %s %s/%s\n" (int_of_nat id) (string_of_z od) (string_of_z mx)
          (string_of_z n) (string_of_z pn) (string_of_z pd)
      | ELog id -> Printf.printf "EV log %d\n" (int_of_nat id)) (List.rev s.s_events);
  print_string "END\n"

(* ---- printing (C20) ---------------------------------------------------------------------------- *)
let str () = counted zz
let ostr () = match next () with "N" -> None | "S" -> Some (str ()) | t -> raise (Parse ("ostr: " ^ t))
let jobview () =
  let ty = jobtype () in
  let mx = zz () in
  let alias = ostr () in
  let qn = ostr () in
  let tn = str () in
  let code = (match int () with -1 -> None | 0 -> Some false | _ -> Some true) in
  let dts = str () in
  let tzn = ostr () in
  let neg = boolean () in
  let abss = str () in
  let att = zz () in
  let w = str () in
  let w3 = str () in
  let due = zz () in
  { v_type = ty; v_max = mx; v_alias = alias; v_qualname = qn; v_typename = tn; v_code = code;
    v_dtstr = dts; v_tzname = tzn; v_neg = neg; v_absstr = abss; v_attempts = att; v_weight = w;
    v_weight3g = w3; v_due = due }
let print_str (s : z list) = Printf.printf "OUT %s\nEND\n" (zs s)

(* ---- asyncio scheduler (C17, C18) --------------------------------------------------------------- *)
let astate : aio option ref = ref None
let aop () = match next () with
  | "DEL" -> ADelete (nat ())
  | "DELJOBS" -> let t = otags () in ADeleteJobs (t, boolean ())
  | "GETJOBS" -> let t = otags () in AGetJobs (t, boolean ())
  | "JOBS" -> AJobs
  | t -> raise (Parse ("aop: " ^ t))
let phase_name = function PSleep _ -> "sleep" | PRun _ -> "run" | PDone -> "done" | PCancelled -> "cancelled"
let print_astate (s : aio) =
  Printf.printf "REG %s\n" (sorted_ids s.a_reg);
  List.iter (fun (id, a) ->
      let j = a.aj_job in
      let d = job_datetime j in
      Printf.printf "J %d %s %s %s %s %d %s\n" (int_of_nat id) (string_of_z (utc d))
        (match d.off with None -> "-" | Some o -> string_of_z o)
        (string_of_z j.j_attempts) (string_of_z j.j_failed)
        (if has_attempts j then 1 else 0) (phase_name a.aj_phase)) s.a_jobs;
  List.iter (fun e ->
      match e with
      | EStart (id, t, due, args, kw) ->
        Printf.printf "EV start %d %s %s [%s] {%s}\n" (int_of_nat id) (string_of_z t) (string_of_z due) (zs args)
          (String.concat "," (List.map (fun (k, v) -> string_of_z k ^ ":" ^ string_of_z v) kw))
      | EEnd (id, t) -> Printf.printf "EV end %d %s\n" (int_of_nat id) (string_of_z t)
      | ECancelled (id, t) -> Printf.printf "EV cancel %d %s\n" (int_of_nat id) (string_of_z t)
      | ELogA id -> Printf.printf "EV log %d\n" (int_of_nat id)) (List.rev s.a_events);
  print_string "END\n"
let do_aio (cmd : string) =
  match cmd with
  | "AINIT" ->
    let tz = otz () in
    let now = zz () in
    let s = a_init tz now in
    astate := Some s; print_string "RES ok none\n"; print_astate s
  | _ ->
    (match !astate with
     | None -> print_string "NOSTATE\nEND\n"
     | Some s ->
       let o = (match cmd with
           | "ASCHED" ->
             let c = cfg () in
             let durs = counted zz in
             let pre = counted aop in
             let post = counted aop in
             let sync = counted boolean in
             TSchedule (c, durs, pre, post, sync)
           | "AONCE" ->
             let ot = oncetiming () in
             let c = cfg () in
             let durs = counted zz in
             let pre = counted aop in
             let post = counted aop in
             let sync = counted boolean in
             TOnce (ot, c, durs, pre, post, sync)
           | "AOP" -> TOp (aop ())
           | "ARUN" -> TRun (zz ())
           | t -> raise (Parse ("aio op: " ^ t))) in
       let tie = a_step_ties s o in
       let (s', r) = a_step s o in
       astate := Some s';
       print_res r; if tie then print_string "TIE\n"; print_astate s')

let state : sched option ref = ref None

(* ---- micro-operations of concurrent executions (C14-C16) ---------------------------------------- *)
let mst : mstate option ref = ref None
let do_mop (cmd : string) =
  (match cmd with
   | "MINIT" -> (match !state with Some s -> mst := Some (m_init s) | None -> ())
   | _ -> ());
  match !mst with
  | None -> print_string "NOSTATE\nEND\n"
  | Some m ->
    if cmd = "MINIT" then (print_string "RES ok none\n"; print_state m.m_s) else
    let o = (match cmd with
        | "MADD" -> MAdd (cfg ())
        | "MONCE" -> let ot = oncetiming () in MOnce (ot, cfg ())
        | "MREMOVE" -> MRemove (nat ())
        | "MDELJOBS" -> let t = otags () in MDeleteJobs (t, boolean ())
        | "MSNAP" -> let t = otags () in MSnapshot (t, boolean ())
        | "MBEGIN" -> let t = nat () in let f = boolean () in MBegin (t, f, counted nat)
        | "MPRIO" -> let t = nat () in let id = nat () in
          let p = (match next () with "N" -> None | _ -> let n = zz () in let d = zz () in Some (n, d)) in
          MPrio (t, id, p)
        | "MSELECT" -> MSelect (nat ())
        | "MRUN" -> let id = nat () in MRun (id, boolean ())
        | "MRESCHED" -> MResched (nat ())
        | "MRETIRE" -> MRetire (nat ())
        | t -> raise (Parse ("mop: " ^ t))) in
    let (m', r) = mstep m o in
    mst := Some m';
    print_res r; print_state (clear_events m'.m_s)

(* ---- sequential threading scheduler ----------------------------------------------------- *)
let do_line (line : string) =
  toks := List.filter (fun t -> t <> "") (String.split_on_char ' ' (String.trim line));
  match !toks with
  | [] -> ()
  | _ ->
    (match next () with
     | "INIT" ->
       let tz = otz () in
       let mx = zz () in
       let pk = priokind () in
       let now = zz () in
       let ctor = counted (fun () -> let c = cfg () in let t = otz () in (c, t)) in
       (match sched_init tz mx pk ctor now with
        | Ok s -> state := Some s; print_string "RES ok none\n"; print_state s
        | Err e -> state := None; Printf.printf "RES err %s\nEND\n" (exn_name e))
     | "RESET" -> state := None; astate := None; mst := None; print_string "RESET\n"
     | ("AINIT" | "ASCHED" | "AONCE" | "AOP" | "ARUN") as c -> do_aio c
     | ("MINIT" | "MADD" | "MONCE" | "MREMOVE" | "MDELJOBS" | "MSNAP" | "MBEGIN" | "MPRIO" | "MSELECT" | "MRUN"
       | "MRESCHED" | "MRETIRE") as c -> do_mop c
     | "TABLE" ->
       let ww = boolean () in
       let has_tz = boolean () in
       let heading = str () in
       let jobs = counted jobview in
       print_str (table ww has_tz heading jobs)
     | "STHR" ->
       let mx = zz () in
       let tz = ostr () in
       let pname = str () in
       let jobs = counted jobview in
       print_str (sched_str_thr mx tz pname jobs)
     | "SAIO" ->
       let tz = ostr () in
       let jobs = counted jobview in
       print_str (sched_str_aio tz jobs)
     | "JOBSTR" ->
       let ww = boolean () in
       print_str (job_str ww (jobview ()))
     | "CUTOFF" ->
       let s = str () in
       let w = zz () in
       let tail = boolean () in
       (match m_str_cutoff s w tail with
        | Ok r -> print_str r
        | Err e -> Printf.printf "ERR %s\nEND\n" (exn_name e))
     | cmd ->
       (match !state with
        | None -> print_string "NOSTATE\nEND\n"
        | Some s ->
          let o = (match cmd with
              | "NOW" -> ONow (zz ())
              | "CALL" -> let c = cbop () in let prog = counted cbop in OCall (c, prog)
              | "EXEC" ->
                let force = boolean () in
                let order = counted nat in
                let table = counted (fun () -> let id = nat () in let n = zz () in let d = zz () in (id, (n, d))) in
                OExec (force, order, table)
              | t -> raise (Parse ("op: " ^ t))) in
          let (s', r) = step s o in
          state := Some s';
          print_res r; print_state s'))

let () =
  try
    while true do
      let line = input_line stdin in
      (try do_line line with Parse m -> Printf.printf "PARSEERROR %s\nEND\n" m)
    done
  with End_of_file -> ()
